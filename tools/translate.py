#!/usr/bin/env python3
"""T-gen: regenerate the Lean tables under lean/RitiModel/Gen from /repo's current sources
(and from the vendored okkhor crate).  Recognises only the regular shape of the items it reads
and fails loudly (exit 2, message `TRANSLATOR-FAIL <item>: why`) on anything else.

Usage: translate.py [--repo /repo] [--out /verif/lean/RitiModel/Gen] [--check]
A file is rewritten only when its content changes (so lake does not rebuild needlessly).
"""
import os, re, sys, json, glob, argparse

class Fail(Exception):
    def __init__(self, item, why):
        super().__init__(f"{item}: {why}")
        self.item = item
        self.why = why

def read(p):
    with open(p, encoding="utf-8") as f:
        return f.read()

def strip_comments(src):
    # remove // line comments (not inside string/char literals) and /* */ block comments
    out = []
    i = 0
    n = len(src)
    while i < n:
        c = src[i]
        if c == '"':
            j = i + 1
            while j < n and src[j] != '"':
                if src[j] == '\\':
                    j += 1
                j += 1
            out.append(src[i:j + 1]); i = j + 1
        elif c == "'" and i + 2 < n and (src[i + 2] == "'" or src[i + 1] == '\\'):
            # char literal
            j = i + 1
            if src[j] == '\\':
                j += 1
                if src[j] == 'u':
                    while src[j] != '}':
                        j += 1
            j += 1
            if j < n and src[j] == "'":
                out.append(src[i:j + 1]); i = j + 1
            else:
                out.append(c); i += 1
        elif src.startswith("//", i):
            j = src.find("\n", i)
            if j < 0: j = n
            i = j
        elif src.startswith("/*", i):
            j = src.find("*/", i)
            if j < 0: j = n
            i = j + 2
        else:
            out.append(c); i += 1
    return "".join(out)

def unescape_rust(s, item):
    """Rust string/char literal body -> python str"""
    out = []
    i = 0
    while i < len(s):
        c = s[i]
        if c == '\\':
            d = s[i + 1]
            if d == 'u':
                m = re.match(r'\\u\{([0-9A-Fa-f_]+)\}', s[i:])
                if not m: raise Fail(item, f"bad unicode escape in {s!r}")
                out.append(chr(int(m.group(1).replace('_', ''), 16)))
                i += len(m.group(0)); continue
            elif d == 'n': out.append('\n')
            elif d == 't': out.append('\t')
            elif d == 'r': out.append('\r')
            elif d == '0': out.append('\0')
            elif d == '\\': out.append('\\')
            elif d == '"': out.append('"')
            elif d == "'": out.append("'")
            elif d == '\n':
                # line continuation: skip whitespace
                i += 2
                while i < len(s) and s[i] in ' \t\n': i += 1
                continue
            else: raise Fail(item, f"unknown escape \\{d}")
            i += 2
        else:
            out.append(c); i += 1
    return "".join(out)

STR = r'"((?:[^"\\]|\\.)*)"'
CHR = r"'((?:[^'\\]|\\u\{[0-9A-Fa-f]+\}|\\.))'"

def fn_body(src, header_re, item):
    """return text of the brace block following the first match of header_re"""
    i = -1
    for m in re.finditer(header_re, src):
        k = m.end()
        while k < len(src) and src[k] in " \t\n": k += 1
        if k < len(src) and src[k] == "{":
            i = k; break
        if src[m.end() - 1] == "{":
            i = m.end() - 1; break
    if i < 0: raise Fail(item, f"header {header_re!r} with a body not found")
    depth = 0
    j = i
    n = len(src)
    while j < n:
        c = src[j]
        if c == '"':
            j += 1
            while src[j] != '"':
                if src[j] == '\\': j += 1
                j += 1
        elif c == "'":
            m2 = re.match(CHR, src[j:])
            if m2:
                j += len(m2.group(0)) - 1
        elif c == '{': depth += 1
        elif c == '}':
            depth -= 1
            if depth == 0:
                return src[i + 1:j]
        j += 1
    raise Fail(item, "unbalanced braces")

def nat_list(xs): return "[" + ", ".join(str(x) for x in xs) + "]"
def cps(s): return nat_list([ord(c) for c in s])

# ------------------------------------------------------------------------------------------
def gen_keycodes(repo):
    item = "keycodes"
    src = strip_comments(read(f"{repo}/src/keycodes.rs"))
    consts = re.findall(r'pub const (VC_\w+): u16 = (0x[0-9A-Fa-f]+|\d+);', src)
    if len(consts) < 50: raise Fail(item, "too few VC_ constants")
    cmap = {}
    for k, v in consts:
        if k in cmap: raise Fail(item, f"duplicate constant {k}")
        cmap[k] = int(v, 0)
    hdr = read(f"{repo}/include/riti.h")
    hdefs = re.findall(r'#define (VC_\w+) (0x[0-9A-Fa-f]+|\d+)\s', hdr)
    body = fn_body(src, r'fn keycode_to_char\(key: u16\) -> (?:char|Option<char>)', item)
    body = fn_body(body, r'match key', item)
    arms = []
    fallback = None
    arm_re = re.compile(r'\s*(VC_\w+)\s*=>\s*' + CHR + r'\s*,')
    pos = 0
    while True:
        m = arm_re.match(body, pos)
        if not m: break
        if m.group(1) not in cmap: raise Fail(item, f"unknown constant {m.group(1)}")
        arms.append((m.group(1), unescape_rust(m.group(2), item)))
        pos = m.end()
    rest = body[pos:].strip()
    m = re.fullmatch(r'_\s*=>\s*(.*?),?', rest, re.S)
    if not m: raise Fail(item, f"unrecognised arm at {rest[:50]!r}")
    fallback = m.group(1).strip()
    if fallback.startswith("panic!"): fb = "panic"
    elif fallback in ("return None", "None"): fb = "none"
    else: raise Fail(item, f"unrecognised catch-all arm {fallback!r}")
    # first-match semantics: keep only first occurrence of a code
    seen = set(); rows = []
    for k, ch in arms:
        code = cmap[k]
        if code in seen: continue
        seen.add(code); rows.append((code, ord(ch)))
    rows.sort()   # keys are distinct after first-match de-duplication, so order is immaterial
    L = []
    L.append("/- GENERATED by tools/translate.py from src/keycodes.rs and include/riti.h — do not edit -/")
    L.append("namespace Riti.Gen")
    L.append("/-- (name index, value) of every `pub const VC_*` in keycodes.rs, source order -/")
    L.append("def vcRust : List Nat := " + nat_list([int(v, 0) for _, v in consts]))
    L.append("/-- values of every `#define VC_*` in riti.h, source order -/")
    L.append("def vcHeader : List Nat := " + nat_list([int(v, 0) for _, v in hdefs]))
    L.append("/-- names in the two files agree position by position -/")
    L.append("def vcNamesAgree : Bool := " + ("true" if [k for k, _ in consts] == [k for k, _ in hdefs] else "false"))
    L.append("/-- `keycode_to_char` arms, first match wins: (key code, ASCII code) -/")
    L.append("def keyChar : List (Nat × Nat) := [" + ", ".join(f"({a}, {b})" for a, b in rows) + "]")
    L.append("/-- what the catch-all arm does: true = `panic!` -/")
    L.append("def keyCharFallbackPanics : Bool := " + ("true" if fb == "panic" else "false"))
    L.append("end Riti.Gen")
    return "Keycodes.lean", "\n".join(L) + "\n", dict(cmap=cmap, header=dict((k, int(v, 0)) for k, v in hdefs))

KEYNAMES = (["0","1","2","3","4","5","6","7","8","9"] +
    ["ParenRight","Exclaim","At","Hash","Dollar","Percent","Circum","Ampersand","Asterisk","ParenLeft"] +
    [chr(c) for c in range(ord('a'), ord('z')+1)] + [chr(c) for c in range(ord('A'), ord('Z')+1)] +
    ["Grave","Tilde","Minus","UnderScore","Equals","Plus","BracketLeft","BraceLeft","BracketRight","BraceRight",
     "BackSlash","Bar","Semicolon","Colon","Apostrophe","Quote","Comma","Less","Period","Greater","Slash","Question"] +
    ["Num0","Num1","Num2","Num3","Num4","Num5","Num6","Num7","Num8","Num9","NumDivide","NumMultiply","NumSubtract","NumAdd","NumDecimal"])

def keyname_ctor(n):
    if n.isdigit(): return "d" + n
    if len(n) == 1 and n.islower(): return "l" + n
    if len(n) == 1 and n.isupper(): return "u" + n
    return n[0].lower() + n[1:]

def gen_layoutkeys(repo, kc):
    item = "layoutkeys"
    src = strip_comments(read(f"{repo}/src/fixed/layout.rs"))
    cmap = kc["cmap"]
    body = fn_body(src, r'fn get_char_for_key\([^{]*\{', item)
    body = fn_body(body, r'match \(key, modifier\)', item)
    rows = []; seen = set()
    catchall = None
    for line in re.split(r',\s*\n', body):
        line = line.strip().rstrip(",").strip()
        if not line: continue
        m = re.fullmatch(r'\((VC_\w+), modifier\)\s*=>\s*self\.layout_get_value\(' + STR + r', modifier\)', line, re.S)
        if m:
            k, name, num = m.group(1), unescape_rust(m.group(2), item), False
        else:
            m = re.fullmatch(r'\((VC_\w+), _\)\s*=>\s*self\.layout_get_value_numpad\(' + STR + r', fixed_numpad\)', line, re.S)
            if m:
                k, name, num = m.group(1), unescape_rust(m.group(2), item), True
            else:
                m = re.fullmatch(r'_\s*=>\s*(\w+)', line)
                if m:
                    catchall = m.group(1); continue
                raise Fail(item, f"unrecognised arm {line!r}")
        if k not in cmap: raise Fail(item, f"unknown constant {k}")
        if name not in KEYNAMES: raise Fail(item, f"unknown layout entry name {name!r}")
        code = cmap[k]
        if code in seen: continue
        seen.add(code); rows.append((code, name, num))
    if catchall != "None": raise Fail(item, f"catch-all arm is {catchall!r}, expected None")
    rows.sort(key=lambda r: r[0])   # keys are distinct after first-match de-duplication
    # the two accessor helpers
    gv = fn_body(src, r'fn layout_get_value\([^{]*\{', item)
    if not re.search(r'format!\("Key_\{\}_\{\}", key, modifier\)', gv) or ".filter(|s| !s.is_empty())" not in gv:
        raise Fail(item, "layout_get_value has an unexpected shape")
    gn = fn_body(src, r'fn layout_get_value_numpad\([^{]*\{', item)
    if not re.search(r'\.get\(key\)', gn) or ".filter(|s| fixed_numpad && !s.is_empty())" not in gn:
        raise Fail(item, "layout_get_value_numpad has an unexpected shape")
    fm = fn_body(src, r'impl From<Modifiers> for LayoutModifiers', item)
    fm = fn_body(fm, r'match modifiers', item)
    arms = re.findall(r'\((_|true|false), (_|true|false)\)\s*=>\s*(\w+)', fm)
    if not arms: raise Fail(item, "From<Modifiers> arms not found")
    def plane(shift, alt):
        for a, b, r in arms:
            if (a == "_" or (a == "true") == shift) and (b == "_" or (b == "true") == alt):
                return r
        raise Fail(item, "From<Modifiers> not exhaustive")
    disp = fn_body(src, r'impl fmt::Display for LayoutModifiers', item)
    dm = dict(re.findall(r'(\w+)\s*=>\s*write!\(f, ' + STR + r'\)', disp))
    if set(dm) != {"Normal", "AltGr"}: raise Fail(item, "Display arms")
    util = strip_comments(read(f"{repo}/src/utility.rs"))
    ctx = strip_comments(read(f"{repo}/src/context.rs"))
    ms = re.search(r'pub const MODIFIER_SHIFT: u8 = 1 << (\d+);', ctx)
    ma = re.search(r'pub const MODIFIER_ALT_GR: u8 = 1 << (\d+);', ctx)
    if not ms or not ma: raise Fail(item, "MODIFIER constants")
    gm = fn_body(util, r'fn get_modifiers\(modifier: u8\) -> Modifiers', item)
    if ("let shift = (modifier & MODIFIER_SHIFT) == MODIFIER_SHIFT;" not in gm or
        "let alt_gr = (modifier & MODIFIER_ALT_GR) == MODIFIER_ALT_GR;" not in gm or
        not re.search(r'\(shift, alt_gr\)\s*$', gm.strip())):
        raise Fail(item, "get_modifiers has an unexpected shape")
    L = ["/- GENERATED by tools/translate.py from src/fixed/layout.rs, src/utility.rs, src/context.rs — do not edit -/",
         "namespace Riti.Gen",
         "/-- names of the entries a layout file may define for a key -/",
         "inductive KeyName where"]
    for n in KEYNAMES: L.append(f"  | {keyname_ctor(n)}")
    L.append("  deriving DecidableEq, Repr, Inhabited")
    L.append("def KeyName.str : KeyName → String")
    for n in KEYNAMES: L.append(f"  | .{keyname_ctor(n)} => \"{n}\"")
    L.append("def KeyName.all : List KeyName := [" + ", ".join("." + keyname_ctor(n) for n in KEYNAMES) + "]")
    L.append("/-- `get_char_for_key` arms: (key code, entry, is a number-pad entry) -/")
    L.append("def layoutRows : List (Nat × KeyName × Bool) := [")
    L.append(",\n".join(f"  ({c}, .{keyname_ctor(n)}, {'true' if num else 'false'})" for c, n, num in rows))
    L.append("]")
    L.append("inductive Plane where | normal | altGr deriving DecidableEq, Repr, Inhabited")
    pl = {"Normal": ".normal", "AltGr": ".altGr"}
    L.append("/-- `From<Modifiers> for LayoutModifiers` as a table over (shift, altgr) -/")
    L.append("def planeOf : Bool → Bool → Plane")
    for s in (False, True):
        for a in (False, True):
            L.append(f"  | {'true' if s else 'false'}, {'true' if a else 'false'} => {pl[plane(s, a)]}")
    L.append(f"def Plane.str : Plane → String | .normal => \"{dm['Normal']}\" | .altGr => \"{dm['AltGr']}\"")
    L.append(f"def modShiftBit : Nat := {ms.group(1)}")
    L.append(f"def modAltGrBit : Nat := {ma.group(1)}")
    L.append("end Riti.Gen")
    return "LayoutKeys.lean", "\n".join(L) + "\n"

def gen_charclasses(repo):
    item = "charclasses"
    util = strip_comments(read(f"{repo}/src/utility.rs"))
    def char_set(body, src, what):
        """the set of characters a pure membership test denotes; accepted shapes:
           "literal".contains(*self) | NAME.contains(self|&self|*self) with `const NAME` a &str / char array / char slice in the
           same file | matches!(self|*self|c, 'a' | 'b' | …).  Anything else (ranges, negation, further logic) is refused."""
        b = body.strip()
        m = re.fullmatch(STR + r'\s*\.contains\(\s*[*&]?\s*(?:self|c)\s*\)', b, re.S)
        if m: return unescape_rust(m.group(1), item)
        m = re.fullmatch(r'([A-Z][A-Z0-9_]*)\s*\.contains\(\s*[*&]?\s*(?:self|c)\s*\)', b, re.S)
        if m:
            name = m.group(1)
            d = re.search(r'const ' + name + r'\s*:\s*&(?:\'static )?str\s*=\s*' + STR + r'\s*;', src)
            if d: return unescape_rust(d.group(1), item)
            d = re.search(r'const ' + name + r'\s*:\s*(?:\[char;\s*\d+\]|&(?:\'static )?\[char\])\s*=\s*&?\[(.*?)\]\s*;', src, re.S)
            if d:
                body2 = d.group(1)
                chars_ = re.findall(CHR, body2)
                if re.sub(CHR, '', body2).replace(',', '').strip() != "": raise Fail(item, f"{what}: constant {name} is not a plain list of characters")
                return "".join(unescape_rust(x, item) for x in chars_)
            raise Fail(item, f"{what}: constant {name} not found in a recognised form")
        m = re.fullmatch(r'matches!\(\s*[*&]?\s*(?:self|c)\s*,\s*((?:' + CHR + r'\s*\|?\s*)+)\)', b, re.S)
        if m: return "".join(unescape_rust(x, item) for x in re.findall(CHR, m.group(1)))
        raise Fail(item, f"{what} has an unexpected shape")
    def cls(fn):
        b = fn_body(util, r'fn ' + fn + r'\(&self\) -> bool', item)
        return char_set(b, util, fn)
    fm = strip_comments(read(f"{repo}/src/fixed/method.rs"))
    chars = strip_comments(read(f"{repo}/src/fixed/chars.rs"))
    pm = strip_comments(read(f"{repo}/src/phonetic/method.rs"))
    fs = strip_comments(read(f"{repo}/src/fixed/search.rs"))
    ps = strip_comments(read(f"{repo}/src/phonetic/suggestion.rs"))
    consts = re.findall(r'pub\(crate\) const (\w+): char = ' + CHR + ';', chars)
    cdict = {k: unescape_rust(v, item) for k, v in consts}
    def str_const(name, srcs):
        for src in srcs:
            m = re.search(r'const ' + name + r'\s*:\s*&(?:\'static )?str\s*=\s*' + STR + r'\s*;', src)
            if m: return unescape_rust(m.group(1), item)
        raise Fail(item, name)
    def named_set(fn, src):
        """a predicate over the named constants of fixed/chars.rs: `c == A || c == B …` or `matches!(c, A | B | …)`"""
        body = fn_body(src, r'fn ' + fn + r'\(c: char\) -> bool', item).strip()
        names = re.findall(r'c == (\w+)', body)
        if names and re.sub(r'c == \w+|\|\||\s', '', body) == "": pass
        else:
            m = re.fullmatch(r'matches!\(\s*c\s*,\s*((?:\w+\s*\|?\s*)+)\)', body, re.S)
            if not m: raise Fail(item, fn + " shape")
            names = re.findall(r'\w+', m.group(1))
        for n in names:
            if n not in cdict: raise Fail(item, f"{fn}: unknown constant {n}")
        return [ord(cdict[n]) for n in names]
    def punct_set():
        m = re.search(r'matches!\(\s*\w+,\s*((?:' + CHR + r'\s*\|?\s*)+)\)', pm, re.S)
        if m: return "".join(unescape_rust(x, item) for x in re.findall(CHR, m.group(1)))
        # a named constant tested with `.contains(<the typed character>)`
        m = re.search(r'([A-Z][A-Z0-9_]*)\s*\.contains\(\s*[*&]?\s*\w+\s*\)', pm)
        if m: return str_const(m.group(1), [pm])
        raise Fail(item, "punctuation set of the selection override")
    def clean_set():
        cb = fn_body(fs, r'fn clean_string\(string: &str\) -> String', item)
        m = re.search(r'\.filter\(\|&c\| !' + STR + r'\.contains\(c\)\)', cb)
        if m: return unescape_rust(m.group(1), item)
        m = re.search(r'\.filter\(\|&?c\| !([A-Z][A-Z0-9_]*)\.contains\(\*?c\)\)', cb)
        if m: return str_const(m.group(1), [fs])
        raise Fail(item, "clean_string shape")
    def regex_class():
        # the character class of the search pattern: the one bracket expression in a string literal of fixed/search.rs that is
        # followed (in the same or a later literal) by a `{0,n}` repetition
        lits = [unescape_rust(x, item) for x in re.findall(STR, fs)]
        cands = [m.group(1) for l in lits for m in re.finditer(r'\[([^\]]{10,})\]', l)]
        if len(cands) == 0:
            # the pattern assembled piece by piece with the class kept in a named string constant:
            #   x.push('['); x.push_str(NAME); x.push_str("]{0,") …      with      const NAME: &str = "…";
            m = re.search(r"push\('\['\)\s*;\s*\w+\.push_str\(\s*&?(\w+)\s*\)\s*;\s*\w+\.push_str\(\s*\"\]\{0,", fs)
            if m:
                c = re.search(r'const\s+' + m.group(1) + r"\s*:\s*&(?:'static\s+)?str\s*=\s*" + STR + r'\s*;', fs)
                if c and len(unescape_rust(c.group(1), item)) >= 10 and "]" not in unescape_rust(c.group(1), item): cands = [unescape_rust(c.group(1), item)]
        if len(cands) != 1: raise Fail(item, f"search regex shape ({len(cands)} bracket expressions)")
        if not any("{{0,{" in l or "{0," in l for l in lits): raise Fail(item, "search regex shape (no bounded repetition)")
        if not any(l.startswith("^") or l == "^" for l in lits) and "push('^')" not in fs: raise Fail(item, "search regex shape (no anchor)")
        return cands[0]
    def need_chars():
        m = re.search(r'=\s*match \w+\.chars\(\)\.count\(\) \{\s*1 => (\d+),\s*2\.\.=3 => (\d+),\s*_ => (\d+),?\s*\};', fs)
        if not m: raise Fail(item, "need_chars_upto shape")
        return [int(x) for x in m.groups()]
    def first_char_table():
        rows = re.findall(CHR + r'\s*=>\s*' + STR + ',', fs)
        if len(rows) >= 50:
            if "_ => return" not in fs: raise Fail(item, "first-char table: no early return for unknown characters")
        else:
            m = re.search(r'const (\w+)\s*:\s*\[\(char, &(?:\'static )?str\);\s*(\d+)\]\s*=\s*\[(.*?)\];', fs, re.S)
            if not m: raise Fail(item, "first-char table shape")
            rows = re.findall(r'\(\s*' + CHR + r'\s*,\s*' + STR + r'\s*\)', m.group(3))
            if len(rows) != int(m.group(2)): raise Fail(item, "first-char table: row count")
        ftab = []; seen = set()
        for c, t in rows:
            c = unescape_rust(c, item)
            if c in seen: continue            # first match wins in both forms
            seen.add(c); ftab.append((ord(c), unescape_rust(t, item)))
        return ftab
    def phonetic_table():
        m = re.search(r'let table: \[\(&str, &\[&str\]\); (\d+)\] = \[(.*?)\];\s*let table = table\.into_iter\(\)\.collect\(\);', ps, re.S)
        if not m: raise Fail(item, "phonetic first-letter table")
        prow = re.findall(r'\(' + STR + r',\s*&\[((?:\s*' + STR + r'\s*,?)*)\]\)', m.group(2))
        if len(prow) != int(m.group(1)): raise Fail(item, "phonetic table row count")
        ptab = {}
        for r in prow: ptab[unescape_rust(r[0], item)] = [unescape_rust(x, item) for x in re.findall(STR, r[1])]   # HashMap collect: last wins
        return ptab
    def canon(t): return nat_list(sorted(set(ord(c) for c in t)))     # membership only: listing order is not behaviour
    # every definition is extracted on its own: one that cannot be read keeps the value of the last successful translation and is
    # reported as `charclasses.<name>`, so that only the properties that depend on it are affected
    subs = [
        ("vowelSet", "List Nat", lambda: canon(cls("is_vowel"))),
        ("karSet", "List Nat", lambda: canon(cls("is_kar"))),
        ("pureConsonantSet", "List Nat", lambda: canon(cls("is_pure_consonant"))),
        ("metaSet", "List Nat", lambda: canon(str_const("META", [util]))),
        ("marksSet", "List Nat", lambda: canon(str_const("MARKS", [fm]))),
        ("ligatureKarSet", "List Nat", lambda: nat_list(sorted(named_set("is_ligature_making_kar", chars)))),
        ("leftStandingKarSet", "List Nat", lambda: nat_list(sorted(named_set("is_left_standing_kar", fm)))),
        ("punctOverrideSet", "List Nat", lambda: canon(punct_set())),
        ("cleanSet", "List Nat", lambda: canon(clean_set())),
        ("regexClassSet", "List Nat", lambda: canon(regex_class())),
        ("needCharsUpto", "Nat → Nat", lambda: (lambda n: f"fun | 1 => {n[0]} | 2 => {n[1]} | 3 => {n[1]} | _ => {n[2]}")(need_chars())),
        ("fixedFirstCharTable", "List (Nat × String)", lambda: "[" + ", ".join(f'({c}, "{t}")' for c, t in first_char_table()) + "]"),
        ("phoneticFirstLetterTable", "List (Nat × List String)", lambda: "[" + ", ".join(f'({ord(k)}, [' + ", ".join(f'"{x}"' for x in v) + '])' for k, v in phonetic_table().items() if len(k) == 1) + "]"),
    ]
    old = {}
    oldp = os.path.join(os.path.dirname(os.path.abspath(__file__)), "..", "lean", "RitiModel", "Gen", "CharClasses.lean")
    if os.path.exists(oldp):
        for mm in re.finditer(r'^def (\w+) : ([^\n]*?) := (.*)$', read(oldp), re.M): old[mm.group(1)] = mm.group(3)
    L = ["/- GENERATED by tools/translate.py from src/utility.rs, src/fixed/{method,chars,search}.rs, src/phonetic/{method,suggestion}.rs — do not edit -/",
         "namespace Riti.Gen"]
    sub_failed = []
    for name, ty, f in subs:
        try: val = f()
        except Fail as e:
            if name not in old: raise
            val = old[name]; sub_failed.append((f"charclasses.{name}", e.why))
        L.append(f"def {name} : {ty} := {val}")
    if not consts: raise Fail(item, "no character constants found in fixed/chars.rs")
    for k in sorted(cdict):                                            # declaration order is not behaviour
        L.append(f"def {k} : Nat := {ord(cdict[k])}")
    L.append("end Riti.Gen")
    return "CharClasses.lean", "\n".join(L) + "\n", sub_failed

def gen_rankcmp(repo):
    item = "rankcmp"
    src = strip_comments(read(f"{repo}/src/suggestion.rs"))
    body = fn_body(src, r'impl Ord for Rank', item)
    body = fn_body(body, r'match \(self, other\)', item)
    V = ["First", "Emoji", "Other", "Last"]
    table = {}
    for line in body.split("\n"):
        line = line.strip().rstrip(",")
        if not line: continue
        m = re.fullmatch(r'\(Rank::(\w+)\((_|_, (\w+))\), Rank::(\w+)\((_|_, (\w+))\)\)\s*=>\s*(.*)', line)
        if not m: raise Fail(item, f"unrecognised arm {line!r}")
        a, _, av, b, _, bv, rhs = m.groups()
        if a not in V or b not in V: raise Fail(item, f"unknown variant in {line!r}")
        mm = re.fullmatch(r'Ordering::(Less|Greater|Equal)', rhs)
        if mm: res = mm.group(1).lower()
        else:
            mm = re.fullmatch(r'(\w+)\.cmp\((\w+)\)', rhs)
            if not mm: raise Fail(item, f"unrecognised rhs {rhs!r}")
            x, y = mm.groups()
            if av and bv and av != "_" and bv != "_" and av != bv and (x, y) == (av, bv): res = "cmpRanks"
            elif av and bv and av != bv and (x, y) == (bv, av): res = "cmpRanksRev"
            else: raise Fail(item, f"unrecognised cmp operands in {line!r}")
        if (a, b) not in table: table[(a, b)] = res
    for a in V:
        for b in V:
            if (a, b) not in table: raise Fail(item, f"missing arm ({a},{b})")
    L = ["/- GENERATED by tools/translate.py from src/suggestion.rs (impl Ord for Rank) — do not edit -/",
         "namespace Riti.Gen",
         "inductive Variant where | first | emoji | other | last deriving DecidableEq, Repr, Inhabited",
         "/-- result of one arm: a constant, or the comparison of the two numeric ranks (self vs other, or reversed) -/",
         "inductive Arm where | less | greater | equal | cmpRanks | cmpRanksRev deriving DecidableEq, Repr, Inhabited",
         "def cmpArm : Variant → Variant → Arm"]
    for a in V:
        for b in V:
            L.append(f"  | .{a.lower()}, .{b.lower()} => .{table[(a, b)]}")
    # Rank::new_suggestion: (edit_distance * 10) as u8 ; Rank::emoji => 1
    ns = fn_body(src, r'fn new_suggestion\(item: String, base: &str\) -> Self', item)
    m = re.search(r'let distance = edit_distance\(base, &item\) \* (\d+);\s*Rank::Other\(item, distance as (u8|u16|u32|usize)\)', ns)
    if not m: raise Fail(item, "new_suggestion shape")
    L.append(f"def rankFactor : Nat := {m.group(1)}")
    width = {"u8": 256, "u16": 65536, "u32": 2**32, "usize": 2**64}[m.group(2)]
    L.append(f"def rankModulus : Nat := {width}")
    em = fn_body(src, r'fn emoji\(item: String\) -> Self', item)
    m = re.fullmatch(r'\s*(?:Rank|Self)::(?:Emoji|emoji_ranked)\(item, (\d+)\)\s*', em)      # directly, or through the ranked constructor
    if m and "emoji_ranked" in em:
        er = fn_body(src, r'fn emoji_ranked\(item: String, rank: u8\) -> Self', item)
        if not re.fullmatch(r'\s*(?:Rank|Self)::Emoji\(item, rank\)\s*', er): raise Fail(item, "Rank::emoji_ranked shape")
    if not m: raise Fail(item, "Rank::emoji shape")
    L.append(f"def emojiDefaultRank : Nat := {m.group(1)}")
    L.append("end Riti.Gen")
    return "RankCmp.lean", "\n".join(L) + "\n"

def find_crate(repo, name):
    lock = read(f"{repo}/Cargo.lock")
    m = re.search(r'name = "' + re.escape(name) + r'"\nversion = "([^"]+)"', lock)
    if not m: raise Fail(name, "crate not in Cargo.lock")
    ver = m.group(1)
    for base in glob.glob(os.path.expanduser("~/.cargo/registry/src/*/")):
        p = os.path.join(base, f"{name}-{ver}")
        if os.path.isdir(p): return p
    raise Fail(name, f"crate source {name}-{ver} not in the cargo registry")

def lean_chars(s):
    return cps(s)

def parse_pattern_table(item, src, const_name):
    """the `&[Pattern]` constant `const_name` as {find: (rules, default)} (BTreeMap collect: last wins)"""
    m = re.search(r'pub\(crate\) const ' + const_name + r': &\[Pattern\] = &\[(.*?)\n\];', src, re.S)
    if not m: raise Fail(item, const_name + " not found")
    body = m.group(1)
    pats = []
    i = 0
    n = len(body)
    MT = {"Vowel": ".vowel", "Consonant": ".consonant", "Punctuation": ".punctuation", "Number": ".number"}
    def parse_match(t):
        mm = re.fullmatch(r'(PrefixIs|SuffixIs|PrefixIsNot|SuffixIsNot)\((\w+)(?:\(' + CHR + r'\))?\)', t.strip())
        if not mm: raise Fail(item, f"unrecognised match {t!r}")
        kind, ty, ch = mm.groups()
        if ty == "Char":
            mt = f"(.char {ord(unescape_rust(ch, item))})"
        elif ty in MT: mt = MT[ty]
        else: raise Fail(item, f"unknown match type {ty}")
        return f"(.{kind[0].lower() + kind[1:]} {mt})"
    while i < n:
        if body[i] in " \n\t,":
            i += 1; continue
        m1 = re.match(r'Pattern::simple_replace\(' + STR + r',\s*' + STR + r'\)', body[i:])
        if m1:
            pats.append((unescape_rust(m1.group(1), item), [], unescape_rust(m1.group(2), item)))
            i += len(m1.group(0)); continue
        if body.startswith("Pattern {", i):
            # find matching brace
            depth = 0; j = i + len("Pattern ")
            k = j
            while True:
                c = body[k]
                if c == '"':
                    k += 1
                    while body[k] != '"':
                        if body[k] == '\\': k += 1
                        k += 1
                elif c == "'":
                    m2 = re.match(CHR, body[k:])
                    if m2: k += len(m2.group(0)) - 1
                elif c == '{': depth += 1
                elif c == '}':
                    depth -= 1
                    if depth == 0: break
                k += 1
            blk = body[j + 1:k]
            mf = re.search(r'find:\s*' + STR, blk)
            md = re.search(r'default_replacement:\s*' + STR, blk)
            mr = re.search(r'rules:\s*&\[(.*)\]', blk, re.S)
            if not (mf and md and mr): raise Fail(item, f"pattern block shape: {blk[:60]!r}")
            rules = []
            for rm in re.finditer(r'Rule\s*\{\s*when_matches:\s*&\[(.*?)\],\s*replace_with:\s*' + STR + r',?\s*\}', mr.group(1), re.S):
                ms = [x for x in re.split(r',\s*(?![^()]*\))', rm.group(1).strip()) if x.strip()]
                rules.append(([parse_match(x) for x in ms], unescape_rust(rm.group(2), item)))
            nrules = len(re.findall(r'Rule\s*\{', mr.group(1)))
            if nrules != len(rules): raise Fail(item, "rule count mismatch")
            pats.append((unescape_rust(mf.group(1), item), rules, unescape_rust(md.group(1), item)))
            i = k + 1; continue
        raise Fail(item, f"unrecognised text at {body[i:i+40]!r}")
    # BTreeMap collect: last wins for duplicate `find`
    d = {}
    for f, r, dflt in pats: d[f] = (r, dflt)
    return d

def gen_okkhor(repo):
    item = "okkhor"
    crate = find_crate(repo, "okkhor")
    src = strip_comments(read(f"{crate}/src/patterns.rs"))
    d = parse_pattern_table(item, src, "PHONETIC_PATTERNS")
    psrc = strip_comments(read(f"{crate}/src/parser.rs"))
    m = re.search(r"lowercase_c,\s*((?:'[a-z]'\s*\|?\s*)+)\)", psrc)
    if not m: raise Fail(item, "conditional_lowercase set")
    keepcase = "".join(re.findall(r"'([a-z])'", m.group(1)))
    m = re.search(r"fn is_vowel\(c: char\) -> bool \{\s*matches!\(c, ((?:'[a-zA-Z]'\s*\|?\s*)+)\)", psrc)
    if not m: raise Fail(item, "okkhor is_vowel")
    ovowel = "".join(re.findall(r"'([a-zA-Z])'", m.group(1)))
    L = ["/- GENERATED by tools/translate.py from okkhor's src/patterns.rs and src/parser.rs — do not edit -/",
         "namespace Riti.Gen",
         "inductive OkMatchType where | vowel | consonant | punctuation | number | char (c : Nat) deriving DecidableEq, Repr",
         "inductive OkMatch where | prefixIs (t : OkMatchType) | suffixIs (t : OkMatchType) | prefixIsNot (t : OkMatchType) | suffixIsNot (t : OkMatchType) deriving DecidableEq, Repr",
         "structure OkPattern where",
         "  find : List Nat",
         "  rules : List (List OkMatch × List Nat)",
         "  dflt : List Nat",
         "  deriving Repr",
         f"def okkhorKeepCase : List Nat := {cps(keepcase)}",
         f"def okkhorVowels : List Nat := {cps(ovowel)}",
         "def okkhorPatterns : List OkPattern := ["]
    rows = []
    for f in sorted(d):
        r, dflt = d[f]
        rs = "[" + ", ".join("([" + ", ".join(ms) + "], " + cps(rep) + ")" for ms, rep in r) + "]"
        rows.append(f"  ⟨{cps(f)}, {rs}, {cps(dflt)}⟩")
    L.append(",\n".join(rows))
    L.append("]")
    L.append("end Riti.Gen")
    return "OkkhorPatterns.lean", "\n".join(L) + "\n"

def lean_str(s):
    out = []
    for c in s:
        o = ord(c)
        if c in '"\\': out.append("\\" + c)
        elif 32 <= o < 127: out.append(c)
        elif o <= 0xFFFF: out.append("\\u%04x" % o)
        else: out.append(c)
    return '"' + "".join(out) + '"'

def gen_okkhorregex(repo):
    """the regex side of the dictionary look-up: okkhor's REGEX_PATTERNS + the literals of convert_regex_into,
    and riti's first-letter → dictionary-table map (src/phonetic/suggestion.rs)"""
    item = "okkhorregex"
    crate = find_crate(repo, "okkhor")
    src = strip_comments(read(f"{crate}/src/regex_patterns.rs"))
    d = parse_pattern_table(item, src, "REGEX_PATTERNS")
    body = fn_body(src, r'pub fn convert_regex_into\s*\([^{]*\{', item)
    m = re.search(r'const EXTRA: &str = ' + STR + ';', body)
    if not m: raise Fail(item, "EXTRA literal")
    extra = unescape_rust(m.group(1), item)
    # the shape of the loop the model transcribes
    for needle, why in ((r"is_ascii_punctuation\(\)", "punctuation filter"), (r"to_ascii_lowercase\(\)", "lower-casing"), (r"output\.push\('\^'\)", "leading ^"),
                        (r"output\.push\('\$'\)", "trailing $"), (r"output\.push_str\(EXTRA\)", "EXTRA after every pattern")):
        if not re.search(needle, body): raise Fail(item, "convert_regex_into: " + why + " not found")
    # riti's table
    rs = strip_comments(read(f"{repo}/src/phonetic/suggestion.rs"))
    m = re.search(r'let table: \[\(&str, &\[&str\]\); (\d+)\] = \[(.*?)\n\s*\];', rs, re.S)
    if not m: raise Fail(item, "first-letter table in PhoneticSuggestion::new")
    rows = re.findall(r'\(\s*' + STR + r',\s*&\[(.*?)\]\s*\)', m.group(2), re.S)
    if len(rows) != int(m.group(1)): raise Fail(item, "first-letter table: row count")
    table = [(unescape_rust(k, item), [unescape_rust(x, item) for x in re.findall(STR, v)]) for k, v in rows]
    # how the first letter is taken and how the words are filtered
    sb = fn_body(rs, r'fn include_from_dictionary\s*\([^{]*\{', item) if re.search(r'fn include_from_dictionary', rs) else rs
    for needle, why in ((r"word\.get\(0\.\.1\)", "first byte of the word selects the tables"), (r"rgx\.is_match\(", "is_match filter"), (r"convert_regex_into\(word", "regex built from the word")):
        if not re.search(needle, rs): raise Fail(item, "dictionary look-up: " + why + " not found")
    L = ["/- GENERATED by tools/translate.py from okkhor's src/regex_patterns.rs and riti's src/phonetic/suggestion.rs — do not edit -/",
         "import RitiModel.Gen.OkkhorPatterns",
         "namespace Riti.Gen",
         "/-- (find, rules (conditions, replacement), default replacement); strings, converted with `.toList` by the model -/",
         "def okkhorRegexPatterns : List (String × List (List OkMatch × String) × String) := ["]
    prow = []
    for f in sorted(d):
        r, dflt = d[f]
        rsx = "[" + ", ".join("([" + ", ".join(ms) + "], " + lean_str(rep) + ")" for ms, rep in r) + "]"
        prow.append(f"  ({lean_str(f)}, {rsx}, {lean_str(dflt)})")
    L.append(",\n".join(prow)); L.append("]")
    L.append(f"def okkhorRegexExtra : String := {lean_str(extra)}")
    L.append("/-- first typed letter → names of the dictionary tables searched, in order -/")
    L.append("def phoneticTables : List (String × List String) := [")
    L.append(",\n".join(f"  ({lean_str(k)}, [{', '.join(lean_str(x) for x in v)}])" for k, v in table)); L.append("]")
    L.append("end Riti.Gen")
    return "OkkhorRegex.lean", "\n".join(L) + "\n"

def gen_emojicon(repo):
    """the bundled tables of the emojicon crate as riti's build of it serves them: emoticons.rs (emoticon → emoji), the English
    name table that `Emojicon::new` selects (emoji.rs with the crate feature `custom`, gemoji.rs without — read from lib.rs and
    from the feature list of riti's Cargo.toml; the two files are alternatives, they are never merged) and bn_emojis.rs.
    Rows in SOURCE order; every `HashMap` is built by `.into_iter().collect()` (a later duplicate key would replace an earlier
    one — the Lean look-up mirrors that, and Props/EmojiTables proves that there is no duplicate)."""
    item = "emojicon"
    crate = find_crate(repo, "emojicon")
    lib = strip_comments(read(f"{crate}/src/lib.rs"))
    # ---- lib.rs: how the tables are built and queried
    new_body = fn_body(lib, r'impl Emojicon\s*\{\s*pub fn new\s*\(\s*\)\s*->\s*Self\s*\{', item)
    m = re.search(r'let emojis = if cfg!\(feature = "(\w+)"\)\s*\{\s*(\w+)::(\w+)\(\)\s*\}\s*else\s*\{\s*(\w+)::(\w+)\(\)\s*\};', new_body)
    if not m: raise Fail(item, "Emojicon::new: the `if cfg!(feature = ..) { a::f() } else { b::g() }` choice of the name table not found")
    feat, mod_on, fn_on, mod_off, fn_off = m.groups()
    rest = new_body[:m.start()] + new_body[m.end():]
    if not re.fullmatch(r'\s*Self\s*\{\s*emoticons:\s*emoticons::emoticons\(\),\s*emojis,?\s*\}\s*', rest):
        raise Fail(item, f"Emojicon::new: unrecognised remainder {rest.strip()[:80]!r}")
    for hdr, want, why in (
            (r'pub fn get_by_emoticon\s*\([^{]*\{', r'\s*self\.emoticons\.get\(emoticon\)\.map\(\|i\| \*i\)\s*', "get_by_emoticon"),
            (r'pub fn get_by_name\s*\([^{]*\{', r'\s*self\.emojis\.get\(name\)\.map\(\|v\| v\.iter\(\)\.map\(\|s\| \*s\)\)\s*', "get_by_name"),
            (r'impl BengaliEmoji\s*\{\s*pub fn new\s*\(\s*\)\s*->\s*Self\s*\{', r'\s*Self\s*\{\s*emojis:\s*bn_emojis::emojis\(\)\s*\}\s*', "BengaliEmoji::new"),
            (r'pub fn get\s*\(&self, name: &str\)[^{]*\{', r'\s*self\.emojis\.get\(name\)\.map\(\|v\| v\.iter\(\)\.map\(\|s\| \*s\)\)\s*', "BengaliEmoji::get")):
        body = fn_body(lib, hdr, item)
        if not re.fullmatch(want, body): raise Fail(item, f"{why}: unrecognised body {body.strip()[:80]!r}")
    mods = set(re.findall(r'^mod (\w+);', lib, flags=re.M))
    for md in ("emoticons", "bn_emojis", mod_on, mod_off):
        if md not in mods: raise Fail(item, f"lib.rs does not declare `mod {md};`")
    # ---- which feature set riti builds the crate with
    cargo = read(f"{repo}/Cargo.toml")
    dep = re.search(r'^emojicon\s*=\s*(.+)$', cargo, flags=re.M)
    if not dep: raise Fail(item, "emojicon dependency line not found in riti's Cargo.toml")
    if dep.group(1).strip().startswith('"'): feats = []
    else:
        mt = re.fullmatch(r'\{(.*)\}', dep.group(1).strip())
        if not mt: raise Fail(item, f"dependency line shape {dep.group(1)[:60]!r}")
        mf = re.search(r'features\s*=\s*\[(.*?)\]', mt.group(1))
        feats = re.findall(STR, mf.group(1)) if mf else []
        if re.search(r'\b(path|git|package)\s*=', mt.group(1)): raise Fail(item, "emojicon is not taken from the registry")
    name_mod, name_fn = (mod_on, fn_on) if feat in feats else (mod_off, fn_off)

    # ---- the three table files
    def table(mod, fn, listy):
        src = strip_comments(read(f"{crate}/src/{mod}.rs"))
        val = r"&'static \[&'static str\]" if listy else r"&'static str"
        body = fn_body(src, r'pub fn ' + fn + r"\s*\(\s*\)\s*->\s*HashMap<&'static str,\s*" + val + r'>\s*\{', item)
        declared = None
        m1 = re.fullmatch(r'\s*let data:\s*\[\(&str,\s*(&\[&str\]|&str)\);\s*(\d+)\]\s*=\s*\[(.*)\];\s*data\.into_iter\(\)\.collect\(\)\s*', body, re.S)
        m2 = re.fullmatch(r'\s*\[(.*)\]\s*\.into_iter\(\)\s*\.collect\(\)\s*', body, re.S)
        if m1:
            if (m1.group(1) == "&[&str]") != listy: raise Fail(item, f"{mod}.rs: element type of the array")
            declared = int(m1.group(2)); inner = m1.group(3)
        elif m2: inner = m2.group(1)
        else: raise Fail(item, f"{mod}.rs: `[rows].into_iter().collect()` shape not recognised")
        row_re = (r'\(\s*' + STR + r'\s*,\s*&\[((?:\s*' + STR + r'\s*,?)*)\s*\]\s*\)') if listy else (r'\(\s*' + STR + r'\s*,\s*' + STR + r'\s*\)')
        rows = []
        pos = 0
        for rm in re.finditer(row_re, inner):
            if inner[pos:rm.start()].strip(" \t\r\n,") != "": raise Fail(item, f"{mod}.rs: unrecognised text between rows: {inner[pos:rm.start()].strip()[:60]!r}")
            pos = rm.end()
            k = unescape_rust(rm.group(1), item)
            if listy: v = [unescape_rust(x, item) for x in re.findall(STR, rm.group(2))]
            else: v = unescape_rust(rm.group(2), item)
            rows.append((k, v))
        if inner[pos:].strip(" \t\r\n,") != "": raise Fail(item, f"{mod}.rs: unrecognised text after the last row: {inner[pos:].strip()[:60]!r}")
        if declared is not None and declared != len(rows): raise Fail(item, f"{mod}.rs: array declared with {declared} rows, {len(rows)} read")
        if not rows: raise Fail(item, f"{mod}.rs: no rows")
        return rows
    emoticons = table("emoticons", "emoticons", False)
    names = table(name_mod, name_fn, True)
    bengali = table("bn_emojis", "emojis", True)

    CH = 100
    def emit(L, name, ty, rows, fmt, doc):
        n = (len(rows) + CH - 1) // CH
        for i in range(n):
            L.append(f"def {name}_{i} : {ty} := [")
            L.append(",\n".join("  " + fmt(r) for r in rows[i * CH:(i + 1) * CH]))
            L.append("]")
        L.append(f"/-- {doc} ({len(rows)} rows, source order; split into chunks of {CH} rows for the elaborator) -/")
        L.append(f"def {name} : {ty} := " + " ++ (".join(f"{name}_{i}" for i in range(n)) + ")" * (n - 1))
    L = [f"/- GENERATED by tools/translate.py from the emojicon crate ({os.path.basename(crate)}: src/lib.rs, src/emoticons.rs, src/{name_mod}.rs, src/bn_emojis.rs) and the feature list of riti's Cargo.toml — do not edit -/",
         "namespace Riti.Gen",
         "/-- the file `Emojicon::new` takes the English names from, and the crate features riti asks for -/",
         f"def emojiNameSource : String := {lean_str(name_mod + '.rs')}",
         f"def emojiconFeatures : List String := [{', '.join(lean_str(x) for x in feats)}]"]
    emit(L, "emoticonRows", "List (List Nat × List Nat)", emoticons, lambda r: f"({cps(r[0])}, {cps(r[1])})",
         "`emoticons::emoticons()`: (emoticon, emoji) as code points")
    emit(L, "emojiNameRows", "List (List Nat × List (List Nat))", names, lambda r: f"({cps(r[0])}, [{', '.join(cps(x) for x in r[1])}])",
         f"`{name_mod}::{name_fn}()`: (English name, emoji list as `get_by_name` iterates it) as code points")
    emit(L, "bengaliNameRows", "List (List Nat × List (List Nat))", bengali, lambda r: f"({cps(r[0])}, [{', '.join(cps(x) for x in r[1])}])",
         "`bn_emojis::emojis()`: (Bengali name, emoji list as `BengaliEmoji::get` iterates it) as code points")
    L.append("end Riti.Gen")
    text = "\n".join(L) + "\n"
    if len(text.encode("utf-8")) > 1_500_000: raise Fail(item, f"generated file too large ({len(text.encode('utf-8'))} bytes)")
    return "EmojiTables.lean", text

def gen_panicsites(repo):
    """whether the two `Regex::new(..)` calls on the suggestion paths tolerate a compile failure"""
    item = "panicsites"
    flags = []
    for f in ("src/phonetic/suggestion.rs", "src/fixed/search.rs"):
        src = strip_comments(read(f"{repo}/{f}"))
        calls = [m.start() for m in re.finditer(r'Regex::new\(', src)]
        if not calls: raise Fail(item, f"no Regex::new call in {f}")
        for c in calls:
            # the statement up to the next `;` that is not inside braces of a match
            stmt_start = src.rfind("\n", 0, c)
            head = src[stmt_start:c]
            # find the end of the call's parentheses
            depth = 0; j = c + len("Regex::new")
            while True:
                if src[j] == '(': depth += 1
                elif src[j] == ')':
                    depth -= 1
                    if depth == 0: break
                j += 1
            tail = src[j + 1:j + 40].lstrip()
            if tail.startswith(".unwrap()") or tail.startswith(".expect("): flags.append(True)
            elif re.search(r'\bmatch\s*$', head) or re.search(r'if let (Ok|Some)\(\w+\) =\s*$', head) or tail.startswith(".ok()") or tail.startswith("{") or tail.startswith("?"): flags.append(False)
            else: raise Fail(item, f"unrecognised handling of Regex::new in {f}: …{head[-30:]!r} … {tail[:30]!r}")
    L = ["/- GENERATED by tools/translate.py from src/phonetic/suggestion.rs and src/fixed/search.rs — do not edit -/",
         "namespace Riti.Gen",
         "/-- does a failing `Regex::new` (CompiledTooBig on a very long word) reach an `unwrap()`? one flag per call site -/",
         "def regexCompileUnwraps : List Bool := [" + ", ".join("true" if x else "false" for x in flags) + "]",
         "end Riti.Gen"]
    return "PanicSites.lean", "\n".join(L) + "\n"

def gen_logicconsts(repo):
    """literal constants of the hand-modelled logic (rank numbers, length guards, joining characters, truncation)"""
    item = "logicconsts"
    ps = strip_comments(read(f"{repo}/src/phonetic/suggestion.rs"))
    fm = strip_comments(read(f"{repo}/src/fixed/method.rs"))
    last = [int(x) for x in re.findall(r'Rank::last_ranked\([^;]*?,\s*(\d+)\s*,?\s*\)', ps, re.S)]
    if len(last) != 3: raise Fail(item, f"expected 3 last_ranked calls in phonetic/suggestion.rs, found {last}")
    g1 = re.findall(r'if middle\.len\(\) (>=|>) (\d+) \{', ps)
    g2 = re.findall(r'else if len (>=|>) (\d+) \{', ps)
    if len(g1) != 1 or len(g2) != 1: raise Fail(item, "length guards of add_suffix_to_suggestions / get_prev_selection")
    def guard(op, n): return int(n) + (1 if op == ">" else 0)      # smallest length that passes
    pushes = [ord(unescape_rust(x, item)) for x in re.findall(r'\.push\(' + CHR + r'\)', ps)]
    arms = [ord(unescape_rust(x, item)) for x in re.findall(r'\n\s*' + CHR + r'\s*=>\s*\{', ps)]
    def groups(xs, n):
        if not xs or len(xs) % n != 0: raise Fail(item, f"joining characters: {len(xs)} found, not a multiple of {n}")
        out = []
        for i in range(0, len(xs), n):
            g = xs[i:i + n]
            if g not in out: out.append(g)
        return "[" + ", ".join(nat_list(g) for g in out) + "]"
    zs = re.findall(r'\.zip\((\d+)\.\.\)', ps) + re.findall(r'\.zip\((\d+)\.\.\)', fm)
    tr = [int(x) for x in re.findall(r'self\.suggestions\.truncate\((\d+)\)', fm)]
    fl = [int(x) for x in re.findall(r'Rank::last_ranked\([^;]*?,\s*(\d+)\s*,?\s*\)', fm, re.S)]
    # the two sign → independent-vowel tables of process_key_value (automatic vowel forming; hasanta + sign)
    chars_src = strip_comments(read(f"{repo}/src/fixed/chars.rs"))
    cd = {k: ord(unescape_rust(v, item)) for k, v in re.findall(r'pub\(crate\) const (\w+): char = ' + CHR + ';', chars_src)}
    # every sign → independent-vowel table of fixed/method.rs, whatever its form: runs of adjacent match arms
    #   B_x_KAR => self.buffer.push(B_y), | B_x_KAR => { self.buffer.pop(); self.buffer.push(B_y); } | B_x_KAR => Some(B_y), | B_x_KAR => B_y,
    arm = re.compile(r'(B_\w+_KAR)\s*=>\s*(?:self\.buffer\.push\((B_\w+)\)|\{\s*self\.buffer\.pop\(\);\s*self\.buffer\.push\((B_\w+)\);?\s*\}|Some\((B_\w+)\)|(B_\w+))\s*,?')
    tables = []; cur = []; last_end = None
    for mm in arm.finditer(fm):
        v = next(g for g in mm.groups()[1:] if g)
        if last_end is not None and fm[last_end:mm.start()].strip() == "": cur.append((mm.group(1), v))
        else:
            if len(cur) >= 5: tables.append(cur)
            cur = [(mm.group(1), v)]
        last_end = mm.end()
    if len(cur) >= 5: tables.append(cur)
    if not tables: raise Fail(item, "no sign→vowel table found in fixed/method.rs")
    for tb in tables:
        for k, v in tb:
            if k not in cd or v not in cd: raise Fail(item, f"unknown constant {k} / {v}")
    m1 = re.search(r'// Zo-fola insertion\s*if value == ' + STR, read(f"{repo}/src/fixed/method.rs"))
    m2 = re.search(r'if value == ' + STR + r' && config\.get_fixed_old_reph\(\)', fm)
    if not m1 or not m2: raise Fail(item, "zo-fola / reph literals")
    L = ["/- GENERATED by tools/translate.py from src/phonetic/suggestion.rs and src/fixed/method.rs — do not edit -/",
         "namespace Riti.Gen",
         "/-- numbers of the `Rank::last_ranked` calls of phonetic/suggestion.rs in source order (emoticon literal, English, transliteration) -/",
         f"def lastRankNumbers : List Nat := {nat_list(last)}",
         "/-- smallest word length for which suffix candidates are built / a learned base is searched -/",
         f"def suffixMinLen : Nat := {guard(*g1[0])}",
         f"def prevSelMinLen : Nat := {guard(*g2[0])}",
         "/-- characters pushed by the joining rules and matched in their arms, source order, as the DISTINCT groups found (one per copy of the joining code; a shared helper gives one copy) -/",
         f"def joinPushedGroups : List (List Nat) := {groups(pushes, 3)}",
         f"def joinMatchedGroups : List (List Nat) := {groups(arms, 2)}",
         f"def emojiRankStarts : List Nat := {nat_list([int(z) for z in zs])}",
         f"def fixedTruncations : List Nat := {nat_list(tr)}",
         f"def fixedLastRankNumbers : List Nat := {nat_list(fl)}",
         "/-- every sign → independent vowel table of fixed/method.rs (automatic vowel forming; hasanta + sign; or one shared helper), as (sign, vowel) code points -/",
         "def signVowelTables : List (List (Nat × Nat)) := [" + ", ".join("[" + ", ".join(f"({cd[k]}, {cd[v]})" for k, v in tb) + "]" for tb in tables) + "]",
         f"def zoFolaLiteral : List Nat := {cps(unescape_rust(m1.group(1), item))}",
         f"def rephLiteral : List Nat := {cps(unescape_rust(m2.group(1), item))}",
         "end Riti.Gen"]
    return "LogicConsts.lean", "\n".join(L) + "\n"

def main():
    ap = argparse.ArgumentParser()
    ap.add_argument("--repo", default="/repo")
    ap.add_argument("--out", default=os.path.join(os.path.dirname(os.path.abspath(__file__)), "..", "lean", "RitiModel", "Gen"))
    ap.add_argument("--check", action="store_true", help="do not write, report which files would change")
    a = ap.parse_args()
    os.makedirs(a.out, exist_ok=True)
    results = {}
    failed = []
    kc = None
    def run(item, f):
        try:
            return f()
        except Fail as e:
            failed.append((e.item, e.why)); return None
        except Exception as e:
            failed.append((item, f"{type(e).__name__}: {e}")); return None
    r = run("keycodes", lambda: gen_keycodes(a.repo))
    outs = []
    if r:
        outs.append(r[:2]); kc = r[2]
        r2 = run("layoutkeys", lambda: gen_layoutkeys(a.repo, kc))
        if r2: outs.append(r2)
    else:
        failed.append(("layoutkeys", "depends on keycodes"))
    for item, f in (("charclasses", gen_charclasses), ("rankcmp", gen_rankcmp), ("okkhor", gen_okkhor), ("okkhorregex", gen_okkhorregex), ("panicsites", gen_panicsites), ("logicconsts", gen_logicconsts), ("emojicon", gen_emojicon)):
        r = run(item, lambda: f(a.repo))
        if r:
            outs.append(r[:2])
            if len(r) > 2: failed.extend(r[2])      # sub-items that kept their previous value
    # the Bijoy encoder tables of the pinned poriborton crate (tools/gen_bijoy.py)
    try:
        sys.path.insert(0, os.path.dirname(os.path.abspath(__file__)))
        import gen_bijoy
        r = run("bijoy", lambda: gen_bijoy.gen_bijoy(a.repo))
        if r: outs.append(r[:2])
    except Exception as e:
        failed.append(("bijoy", f"{type(e).__name__}: {e}"))
    changed = []
    for name, text in outs:
        p = os.path.join(a.out, name)
        old = read(p) if os.path.exists(p) else None
        if old != text:
            changed.append(name)
            if not a.check:
                with open(p, "w", encoding="utf-8") as f: f.write(text)
    print(json.dumps({"changed": changed, "failed": [{"item": i, "why": w} for i, w in failed]}, ensure_ascii=False))
    for i, w in failed:
        print(f"TRANSLATOR-FAIL {i}: {w}", file=sys.stderr)
    sys.exit(2 if failed else 0)

if __name__ == "__main__":
    main()
